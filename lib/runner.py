"""Runner for the per-property checks (DESIGN.md §5).

Legs:  P  proof obligations compile (props/Cxx.v and its dependency closure,
          over coq/generated regenerated from the working tree), no Admitted /
          axioms of ours, Print Assumptions collected;
       K  correspondence: harness runs the real code (built with -tags verif
          from /repo's working tree) and emits case files that Coq evaluates
          with vm_compute; the list of mismatching cases must be empty;
       O  direct oracle inside the harness (property as a Go predicate over the
          real code's observables): supplies the concrete failing input.
"""
import concurrent.futures, fcntl, glob, hashlib, json, os, re, shutil, subprocess, sys, time

VERIF = os.path.dirname(os.path.dirname(os.path.abspath(__file__)))
REPO = os.environ.get("VERIF_REPO", "/repo")
WORK = os.path.join(VERIF, "work")
COQ = os.path.join(VERIF, "coq")
HARNESS = os.path.join(VERIF, "harness")
BIN = os.path.join(WORK, "bin", "vharness")

GOENV = dict(os.environ, GOFLAGS="-mod=mod", GOPROXY="off", GOSUMDB="off", GOTOOLCHAIN="local",
             CGO_ENABLED=os.environ.get("CGO_ENABLED", "0"))

import props as PROPS  # noqa: E402

FORBIDDEN = re.compile(r"\b(Admitted|admit|Axiom|Axioms|Parameter|Parameters|Conjecture|Admit Obligations)\b|Unset Guard|bypass_check|type-in-type|impredicative-set|Unset Universe Checking|Unset Positivity")


def sh(cmd, cwd=None, env=None, timeout=None):
    t0 = time.time()
    try:
        p = subprocess.run(cmd, cwd=cwd, env=env, stdout=subprocess.PIPE, stderr=subprocess.STDOUT,
                           timeout=timeout, text=True, errors="replace")
        return p.returncode, p.stdout, time.time() - t0
    except subprocess.TimeoutExpired as e:
        out = e.stdout if isinstance(e.stdout, str) else (e.stdout or b"").decode("utf8", "replace")
        return 124, out + "\n[timeout after %ss]" % timeout, time.time() - t0


class Lock:
    def __init__(self, name):
        os.makedirs(WORK, exist_ok=True)
        self.path = os.path.join(WORK, name)

    def __enter__(self):
        self.f = open(self.path, "w")
        fcntl.flock(self.f, fcntl.LOCK_EX)
        return self

    def __exit__(self, *a):
        fcntl.flock(self.f, fcntl.LOCK_UN)
        self.f.close()


def write_if_changed(path, content):
    try:
        if open(path).read() == content:
            return False
    except OSError:
        pass
    os.makedirs(os.path.dirname(path), exist_ok=True)
    with open(path, "w") as f:
        f.write(content)
    return True


# ---------------------------------------------------------------- build steps

def build_harness():
    """go build -tags verif against the working tree of /repo."""
    os.makedirs(os.path.dirname(BIN), exist_ok=True)
    # keep go.sum in step with the repository's
    try:
        shutil.copyfile(os.path.join(REPO, "go.sum"), os.path.join(HARNESS, "go.sum"))
    except OSError:
        pass
    gomod = os.path.join(HARNESS, "go.mod")
    txt = open(gomod).read()
    want = re.sub(r"replace github.com/koykov/decoder => .*", "replace github.com/koykov/decoder => " + REPO, txt)
    if want != txt:
        open(gomod, "w").write(want)
    rc, out, dt = sh(["go", "build", "-tags", "verif", "-o", BIN, "./cmd/vharness"], cwd=HARNESS, env=GOENV, timeout=600)
    return rc == 0, out, dt


def translate():
    rc, out, dt = sh([BIN, "translate", "-repo", REPO, "-out", os.path.join(COQ, "generated")], env=GOENV, timeout=300)
    return rc == 0, out, dt


def coq_project():
    files = []
    for sub in ("theories", "proofs", "props", "generated"):
        files += sorted(glob.glob(os.path.join(COQ, sub, "*.v")))
    rel = [os.path.relpath(f, COQ) for f in files]
    txt = "-Q . Dec\n-arg -w -arg -notation-overridden,-deprecated-hint-without-locality,-deprecated-instance-without-locality,-deprecated-hint-rewrite-without-locality\n" + "\n".join(rel) + "\n"
    changed = write_if_changed(os.path.join(COQ, "_CoqProject"), txt)
    if changed or not os.path.exists(os.path.join(COQ, "Makefile")):
        rc, out, _ = sh(["coq_makefile", "-f", "_CoqProject", "-o", "Makefile"], cwd=COQ, timeout=120)
        if rc != 0:
            raise RuntimeError("coq_makefile failed:\n" + out)
    return rel


def coq_make(targets, timeout=3000):
    """Full .vo build of the given targets (no -vos/-vok)."""
    cmd = ["make", "-j", str(os.cpu_count() or 4), "-k"] + targets
    rc, out, dt = sh(cmd, cwd=COQ, timeout=timeout)
    return rc == 0, out, dt


def coq_closure(vfile):
    """Files of our development the given file depends on (via the .d file coq_makefile keeps)."""
    rc, out, _ = sh(["coqdep", "-Q", ".", "Dec", "-sort", vfile], cwd=COQ, timeout=120)
    files = [f for f in out.split() if f.endswith(".v")]
    return [os.path.normpath(f) for f in files]


def grep_forbidden(files):
    hits = []
    for f in files:
        try:
            src = open(os.path.join(COQ, f)).read()
        except OSError:
            continue
        # strip comments (nested) before searching
        src = strip_comments(src)
        for m in FORBIDDEN.finditer(src):
            line = src.count("\n", 0, m.start()) + 1
            hits.append("%s:%d: %s" % (f, line, m.group(0)))
    return hits


def strip_comments(src):
    out, depth, i, n, instr = [], 0, 0, len(src), False
    while i < n:
        c = src[i]
        if depth == 0 and c == '"':
            instr = not instr
            out.append(c)
            i += 1
            continue
        if not instr and src.startswith("(*", i):
            depth += 1
            i += 2
            continue
        if not instr and depth > 0 and src.startswith("*)", i):
            depth -= 1
            i += 2
            continue
        if depth == 0:
            out.append(c)
        elif c == "\n":
            out.append(c)
        i += 1
    return "".join(out)


def count_obligations(files):
    n = 0
    names = []
    for f in files:
        try:
            src = strip_comments(open(os.path.join(COQ, f)).read())
        except OSError:
            continue
        for m in re.finditer(r"^\s*(Theorem|Lemma|Corollary|Example|Fact|Remark|Proposition)\s+([A-Za-z0-9_']+)", src, re.M):
            n += 1
            names.append(m.group(2))
    return n, names


# ---------------------------------------------------------------- K leg

def run_case_file(path, extra_timeout):
    rc, out, dt = sh(["coqc", "-Q", COQ, "Dec", "-w", "-all", os.path.basename(path)], cwd=os.path.dirname(path), timeout=extra_timeout)
    flat = " ".join(out.split())
    m = re.search(r"M = \[(.*?)\]\s*:", flat)
    if rc != 0 or not m:
        return {"file": path, "ok": False, "error": out[-4000:], "mism": None, "dt": dt}
    body = m.group(1).strip()
    mism = [int(x) for x in re.findall(r"\d+", body)] if body else []
    return {"file": path, "ok": True, "mism": mism, "dt": dt}


# ---------------------------------------------------------------- known findings

def load_known():
    try:
        return json.load(open(os.path.join(VERIF, "known_findings.json")))
    except OSError:
        return []


# ---------------------------------------------------------------- main

def setup():
    t0 = time.time()
    with Lock("build.lock"):
        ok, out, _ = build_harness()
        if not ok:
            print(out)
            print("setup: harness build failed")
            return 1
        ok, out, _ = translate()
        if not ok:
            print(out)
            print("setup: translator failed")
            return 1
        rel = coq_project()
        targets = [f[:-2] + ".vo" for f in rel]
        ok, out, dt = coq_make(targets)
        if not ok:
            print(out[-6000:])
            print("setup: coq build failed")
            return 1
    print("setup ok in %.0fs" % (time.time() - t0))
    return 0


def violation(pid, replay_obj, wdir, suffix=""):
    os.makedirs(wdir, exist_ok=True)
    k = 0
    while os.path.exists(os.path.join(wdir, "replay-%d.json" % k)):
        k += 1
    path = os.path.join(wdir, "replay-%d.json" % k)
    with open(path, "w") as f:
        json.dump(replay_obj, f, indent=1, default=str)
    line = "VIOLATION property=%s replay=%s" % (pid, path)
    if suffix:
        line += " " + suffix
    print(line)
    return path


def main(argv):
    if not argv:
        print(__doc__)
        return 2
    if argv[0] == "setup":
        return setup()
    pid = argv[0]
    tier = os.environ.get("VERIF_TIER", "quick")
    replay = None
    i = 1
    while i < len(argv):
        if argv[i] == "--tier":
            tier = argv[i + 1]
            i += 2
        elif argv[i] == "--replay":
            replay = argv[i + 1]
            i += 2
        else:
            print("unknown argument", argv[i])
            return 2
    if tier not in ("quick", "thorough"):
        tier = "quick"
    seed = int(os.environ.get("VERIF_SEED", "1") or "1")
    if pid not in PROPS.PROPS:
        print("unknown property", pid)
        return 2
    cfg = PROPS.PROPS[pid]
    t0 = time.time()
    wdir = os.path.join(WORK, pid)
    # fresh case dir, keep old replays out of the way
    if os.path.isdir(wdir):
        for f in glob.glob(os.path.join(wdir, "*")):
            if os.path.isdir(f):
                shutil.rmtree(f, ignore_errors=True)
            else:
                os.remove(f)
    os.makedirs(wdir, exist_ok=True)

    ev = {
        "property_id": pid, "tier": tier, "seed": seed, "level": "proof",
        "coverage": {}, "assumptions": list(cfg.get("assumptions", [])), "wall_s": 0.0, "violations": 0,
    }
    cov = ev["coverage"]
    problems = []   # (leg, description, detail)
    tie_broken = None

    # ------------------------------------------------ build + P
    with Lock("build.lock"):
        ok, out, _ = build_harness()
        if not ok:
            tie_broken = ("harness does not build against the working tree with -tags verif", out[-6000:])
        if not tie_broken:
            ok, out, _ = translate()
            if not ok:
                tie_broken = ("translator refused the working tree", out[-6000:])
        rel = coq_project()
        pfile = os.path.join("props", pid + ".v")
        targets = [pfile[:-2] + ".vo"] + [m[:-2] + ".vo" for m in cfg.get("case_modules", [])]
        ok, mout, mdt = coq_make(targets)
        closure = coq_closure(pfile)
        for m in cfg.get("case_modules", []):
            for f in coq_closure(m):
                if f not in closure:
                    closure.append(f)
        if not ok:
            errs = re.findall(r'File "\./([^"]+)", line (\d+)[^\n]*\n((?:.*\n){0,12})', mout)
            detail = mout[-6000:]
            first = errs[0][0] if errs else "?"
            problems.append(("P", "proof obligations no longer check: coqc failed in %s" % first, detail))
        hits = grep_forbidden(rel)
        if hits:
            problems.append(("P", "forbidden construct in the development", "\n".join(hits)))
    # Print Assumptions of the property file
    assumptions_out = ""
    if not any(p[0] == "P" for p in problems):
        padir = os.path.join(wdir, "pa")
        os.makedirs(padir, exist_ok=True)
        shutil.copyfile(os.path.join(COQ, pfile), os.path.join(padir, pid + ".v"))
        rc, aout, _ = sh(["coqc", "-Q", COQ, "Dec", "-w", "-all", pid + ".v"], cwd=padir, timeout=1200)
        assumptions_out = aout
        if rc != 0:
            problems.append(("P", "property file does not compile", aout[-4000:]))
        else:
            chunks = re.split(r"(?=Closed under the global context|Axioms:)", aout)
            axioms = [c.strip() for c in chunks if c.strip().startswith("Axioms:")]
            if axioms:
                allowed = cfg.get("allowed_axioms", [])
                bad = []
                for a in axioms:
                    names = re.findall(r"^\s*([A-Za-z0-9_.']+)\s*:", a, re.M)
                    for nme in names:
                        if nme not in allowed and nme != "Axioms":
                            bad.append(nme)
                if bad:
                    problems.append(("P", "property theorems depend on axioms: " + ", ".join(sorted(set(bad))), aout[-4000:]))
    # independent re-check of the compiled property file and everything it depends on (thorough tier)
    if tier == "thorough" and not any(p[0] == "P" for p in problems):
        with Lock("build.lock"):
            rc, cout, cdt = sh(["coqchk", "-silent", "-o", "-Q", COQ, "Dec", "Dec.props." + pid], cwd=COQ, timeout=3000)
        summ = cout[cout.find("CONTEXT SUMMARY"):] if "CONTEXT SUMMARY" in cout else cout[-1500:]
        cov["coqchk"] = {"ran": True, "seconds": round(cdt, 1), "exit": rc, "summary": [l.strip() for l in summ.splitlines() if l.strip()][:30]}
        if rc != 0:
            problems.append(("P", "coqchk rejects the compiled development", cout[-4000:]))
        else:
            m = re.search(r"\* Axioms:\s*(.*?)\n\s*\n\s*\*", summ, re.S)
            ax = m.group(1).strip() if m else "?"
            if ax != "<none>":
                problems.append(("P", "coqchk reports axioms in the closure of the property file: " + ax[:500], summ[:4000]))
            for what in ("type-in-type", "unsafe (co)fixpoints", "positivity is assumed"):
                mm = re.search(re.escape(what) + r":\s*(.*?)\n", summ)
                if mm and mm.group(1).strip() != "<none>":
                    problems.append(("P", "coqchk: " + what + ": " + mm.group(1).strip()[:300], summ[:4000]))
    nobl, names = count_obligations([f for f in closure if not f.startswith("generated")] + [])
    cov["obligations"] = nobl
    cov["discharged"] = nobl if not any(p[0] == "P" for p in problems) else 0
    cov["property_theorems"] = [n for n in count_obligations([pfile])[1]]
    cov["checker_cmd"] = "make -C coq %s (coqc 8.16.1, full .vo build) && coqc props/%s.v (Print Assumptions)" % (" ".join(targets), pid)
    cov["print_assumptions"] = [l.strip() for l in assumptions_out.splitlines() if l.strip()][:60]
    cov["trusted_base"] = PROPS.TRUSTED_BASE + cfg.get("trusted_base", [])
    cov["closure_files"] = closure

    # ------------------------------------------------ K (+O inside the harness)
    summary = None
    if not tie_broken:
        cmd = [BIN, "run", "-prop", pid, "-tier", tier, "-seed", str(seed), "-out", wdir, "-repo", REPO, "-verif", VERIF]
        if replay:
            cmd += ["-replay", replay]
        rc, hout, hdt = sh(cmd, env=GOENV, timeout=cfg.get("harness_timeout", 3000))
        if rc != 0:
            problems.append(("K", "harness run failed", hout[-6000:]))
        else:
            summary = json.load(open(os.path.join(wdir, "summary.json")))
    else:
        problems.append(("K", tie_broken[0], tie_broken[1]))

    # ------------------------------------------------ race detector (thorough tier)
    if cfg.get("race") and tier == "thorough" and not tie_broken:
        rbin = os.path.join(WORK, "bin", "vharness-race")
        renv = dict(GOENV, CGO_ENABLED="1")
        with Lock("build.lock"):
            rc, rout, _ = sh(["go", "build", "-race", "-tags", "verif", "-o", rbin, "./cmd/vharness"], cwd=HARNESS, env=renv, timeout=900)
        if rc != 0:
            problems.append(("K", "race-detector build of the harness failed", rout[-3000:]))
        else:
            rdir = os.path.join(wdir, "race")
            os.makedirs(rdir, exist_ok=True)
            rc, rout, rdt = sh([rbin, "run", "-prop", pid, "-tier", "quick", "-seed", str(seed), "-out", rdir, "-repo", REPO, "-verif", VERIF],
                               env=dict(renv, GORACE="halt_on_error=0"), timeout=3000)
            cov["race_detector"] = {"ran": True, "seconds": round(rdt, 1), "data_races": rout.count("WARNING: DATA RACE")}
            if "WARNING: DATA RACE" in rout:
                i = rout.index("WARNING: DATA RACE")
                problems.append(("O", "the race detector reported a data race", rout[i:i + 4000]))
                race_report = rout[i:i + 4000]
            elif rc != 0:
                problems.append(("K", "harness run under the race detector failed", rout[-3000:]))

    kmis = []
    if summary is not None:
        files = summary.get("files") or []
        can_eval = not any(p[0] == "P" and "coqc failed" in p[1] and any(m in p[2] for m in cfg.get("case_modules", [])) for p in problems)
        results = []
        if files:
            with concurrent.futures.ThreadPoolExecutor(max_workers=min(len(files), os.cpu_count() or 4)) as ex:
                futs = [ex.submit(run_case_file, os.path.join(wdir, cf["file"]), cfg.get("case_timeout", 900)) for cf in files]
                results = [f.result() for f in futs]
        for cf, r in zip(files, results):
            if not r["ok"]:
                problems.append(("K", "case file %s could not be evaluated in Coq" % cf["file"], r["error"]))
                continue
            for idx in r["mism"]:
                case = cf["cases"][idx] if idx < len(cf["cases"]) else None
                kmis.append({"file": cf["file"], "index": idx, "case": case})
        cov["evaluations"] = summary.get("evaluations", 0)
        cov["distinct_nontrivial"] = summary.get("distinct_nontrivial", 0)
        cov["rule"] = summary.get("rule", "")
        cov["samples"] = summary.get("samples") or []
        cov["exhaustive"] = bool(summary.get("exhaustive"))
        cov["coq_evaluated_cases"] = summary.get("coq_cases", 0)
        cov["distribution"] = summary.get("distribution") or {}
        cov["coq_case_seconds"] = round(sum(r["dt"] for r in results), 1)
        if summary.get("notes"):
            cov["notes"] = summary["notes"]
    kwitness = []
    if kmis:
        problems.append(("K", "%d case(s) on which the Coq model and the implementation disagree" % len(kmis), json.dumps(kmis[:3], indent=1, default=str)[:6000]))
        proj = cfg.get("projection")
        if proj and cfg.get("case_modules") == ["theories/CasesInterp.v"]:
            import modelobs
            def _size(km):
                c = km.get("case")
                try:
                    return sum(len(j["prog"]) for j in c["jobs"])
                except Exception:
                    return 1 << 30
            for km in sorted(kmis, key=_size)[:6]:
                case = km.get("case")
                if not isinstance(case, dict) or "obs" not in case:
                    continue
                mo, err = modelobs.model_obs(os.path.join(wdir, km["file"]), km["index"], COQ)
                km["model"] = mo if mo is not None else err
                if mo is None:
                    continue
                for jn, (io, m) in enumerate(zip(case["obs"], mo)):
                    a, b = PROPS.project(proj, io), PROPS.project(proj, m)
                    if a != b:
                        kwitness.append({"job": jn, "program": case["jobs"][jn]["prog"], "document": case["jobs"][jn]["doc"],
                                         "fail_at_call": case["jobs"][jn].get("fail"),
                                         "observable": proj, "implementation": a, "required_by_proved_model": b,
                                         "full_case": case})
                        break

    # ------------------------------------------------ known findings, verdict
    known = [k for k in load_known() if k.get("property") == pid and k.get("status") == "known"]
    known_sigs = {k.get("signature") for k in known}
    printed = set()
    ofails = []
    if summary is not None:
        for kh in summary.get("known_hits") or []:
            if kh["id"] in {k["id"] for k in known}:
                if kh["id"] not in printed:
                    print("KNOWN-FINDING: property=%s %s: %s" % (pid, kh["id"], kh["what"]))
                    printed.add(kh["id"])
            else:
                ofails.append({"what": "a defect that known_findings.json does not list for this property reproduces: " + kh["id"], "input": kh["id"], "expect": "property holds", "got": kh["what"]})
        cov["known_findings_reproduced"] = sorted(printed)
    if summary is not None:
        for of in summary.get("oracle_failures") or []:
            if of.get("sig") and of.get("sig") in known_sigs:
                continue
            ofails.append(of)

    nviol = 0
    for p_ in problems:
        if p_[0] == "O" and not ofails:
            ofails = [{"what": p_[1], "input": {"stress": "see rule; run under -race", "seed": seed}, "expect": "no data race", "got": p_[2]}]
    if not ofails and kwitness:
        w = kwitness[0]
        ofails = [{"what": "the implementation's %s differ from what the proved model requires for this program (correspondence case projected onto the observables the property speaks about)" % w["observable"],
                   "input": {"program": w["program"], "document": w["document"], "fail_at_call": w["fail_at_call"], "job": w["job"], "case": w["full_case"]},
                   "expect": w["required_by_proved_model"], "got": w["implementation"]}]
    if ofails:
        nviol += 1
        of = ofails[0]
        violation(pid, {"property": pid, "kind": "failing input found by the direct oracle on the implementation",
                        "what": of.get("what"), "input": of.get("input"), "expected": of.get("expect"), "got": of.get("got"),
                        "more": ofails[1:5], "broken_legs": [(p[0], p[1]) for p in problems],
                        "replay_cmd": "./check %s --tier %s  (VERIF_SEED=%d)" % (pid, tier, seed)}, wdir)
    elif problems:
        nviol += 1
        violation(pid, {"property": pid, "kind": "proof obligation or correspondence no longer checks",
                        "broken": [{"leg": p[0], "what": p[1], "detail": p[2]} for p in problems],
                        "replay_cmd": "./check %s --tier %s  (VERIF_SEED=%d)" % (pid, tier, seed)}, wdir,
                  suffix="no-failing-input-found")
    ev["violations"] = nviol
    ev["wall_s"] = round(time.time() - t0, 1)
    ev["coverage"]["legs"] = {"P": not any(p[0] == "P" for p in problems), "K": not any(p[0] == "K" for p in problems), "O_failures": len(ofails)}
    os.makedirs(os.path.join(VERIF, "evidence"), exist_ok=True)
    with open(os.path.join(VERIF, "evidence", pid + ".json"), "w") as f:
        json.dump(ev, f, indent=1, default=str)
    if nviol == 0:
        print("OK property=%s tier=%s obligations=%d cases=%d coq_cases=%d wall=%.0fs" % (
            pid, tier, cov.get("obligations", 0), cov.get("evaluations", 0), cov.get("coq_evaluated_cases", 0), time.time() - t0))
        return 0
    return 1
