#!/bin/bash
# kleg.sh <prop> [seed] [tier]: run the harness for one property and evaluate the case files in Coq (debugging aid)
P=$1; S=${2:-1}; T=${3:-quick}
export GOFLAGS=-mod=mod GOPROXY=off GOSUMDB=off GOTOOLCHAIN=local
rm -rf /verif/work/$P; /verif/work/bin/vharness run -prop $P -seed $S -tier $T -out /verif/work/$P || exit 1
cd /verif/work/$P
python3 - <<PY
import json; s=json.load(open('summary.json')); print('evals',s['evaluations'],'distinct',s['distinct_nontrivial'],'coq',s['coq_cases'],'oracle_fails',len(s['oracle_failures'] or []), 'notes', s.get('notes'))
for of in (s['oracle_failures'] or [])[:3]: print('ORACLE:', of['what'], '| expect', str(of['expect'])[:300], '| got', str(of['got'])[:300]); print(of['input']['jobs'][0]['prog'] if isinstance(of['input'],dict) and 'jobs' in of['input'] else '')
print({k:v for k,v in s['distribution'].items() if k.startswith('result') or 'reject' in k})
PY
ls cases_*.v | xargs -P 16 -I{} sh -c 'coqc -Q /verif/coq Dec {} 2>&1 | tr "\n" " " | sed "s/: list nat/\n/g" | sed "s/^/{}: /"' | grep -v "^cases[^:]*: *$" | grep -v "= \[\]" 
echo done
