#!/bin/bash
# seedtest.sh <seed-id> [prop]: apply a seeded change to /repo, run the property's quick check, undo the change.
id=$1; prop=${2:-${id%%-*}}
cd /verif
git -C /repo diff --quiet || { echo "/repo is dirty"; exit 2; }
git -C /repo apply /verif/seeded/$id/patch.diff || exit 2
out=$(./check $prop 2>&1); rc=$?
git -C /repo checkout -- .
echo "$id [$prop] rc=$rc :: $(echo "$out" | grep -E 'VIOLATION|OK property|KNOWN' | head -3 | tr '\n' ' ')"
if [ $rc -ne 0 ]; then r=$(echo "$out" | grep -o 'replay=[^ ]*' | head -1 | cut -d= -f2); python3 - "$r" <<'PY'
import json,sys
try:
    j=json.load(open(sys.argv[1]))
    print("   kind:", j.get("kind")); print("   what:", (j.get("what") or [b.get("what") for b in j.get("broken",[])]))
except Exception as e: print("   (no replay)", e)
PY
fi
