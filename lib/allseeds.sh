#!/bin/bash
# allseeds.sh: apply every stored seed to /repo in turn, run the check of its property, report the ones not caught
cd /verif
for d in seeded/*/; do
  id=$(basename $d)
  [ -f $d/patch.diff ] || continue
  grep -q '"obsolete"' $d/meta.json 2>/dev/null && continue
  git -C /repo apply --check /verif/$d/patch.diff 2>/dev/null || { echo "NOAPPLY $id"; continue; }
  out=$(./lib/seedtest.sh $id 2>&1 | head -1)
  case "$out" in *"rc=1"*) ;; *) echo "MISS $id :: $(echo $out | cut -c1-120)";; esac
done
echo "allseeds done"
