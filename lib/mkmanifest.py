#!/usr/bin/env python3
"""Regenerates MANIFEST.json from lib/props.py (claimed properties) and
properties.jsonl (everything else is listed under not_applicable)."""
import json, os, sys
sys.path.insert(0, os.path.dirname(os.path.abspath(__file__)))
import props as PROPS
V = os.path.dirname(os.path.dirname(os.path.abspath(__file__)))
ids = [json.loads(l)["id"] for l in open(os.path.join(V, "properties.jsonl")) if l.strip()]
hook_commits = []
try:
    import subprocess
    out = subprocess.run(["git", "-C", "/repo", "log", "--format=%H %s"], stdout=subprocess.PIPE, text=True).stdout
    hook_commits = [l.split()[0] for l in out.splitlines() if l.split(" ", 1)[1].startswith("verif:")]
except Exception:
    pass
m = {
    "version": 1,
    "setup_cmd": "./check setup",
    "hooks": {
        "guard": "verif",
        "enable": "go build -tags verif (harness module under /verif/harness with `replace github.com/koykov/decoder => /repo`); the only hook file is /repo/verif_hooks.go (//go:build verif), read-only views of tree/registry/context plus VerifResetRegistry and VerifDirtyScratch",
        "baseline_off_cmd": "cd /repo && GOFLAGS=-mod=mod GOPROXY=off GOSUMDB=off GOTOOLCHAIN=local go test -vet=off -count=1 ./...",
        "source_commits": hook_commits,
        "add_only": True,
    },
    "engines": [
        {"name": "coq-model", "path": "coq/", "serves_properties": sorted(PROPS.PROPS), "kind_free_text": "hand-written executable Gallina model + theorems (Coq 8.16.1, stdlib only), generated/ regenerated from /repo by the translator on every run"},
        {"name": "vharness", "path": "harness/", "serves_properties": sorted(PROPS.PROPS), "kind_free_text": "Go correspondence harness (runs the real code with -tags verif, emits Coq case files evaluated by vm_compute) + translator + direct oracles"},
    ],
    "checks": [],
    "not_applicable": [],
    "notes": "See DESIGN.md. Every check = P (theorems compile over regenerated data, no axioms) + K (model vs code on generated cases, evaluated inside Coq) + O (direct oracle on the code for the replay).",
}
for pid in ids:
    if pid in PROPS.PROPS:
        c = PROPS.PROPS[pid]
        m["checks"].append({
            "property_id": pid,
            "quick_cmd": "./check %s --tier quick" % pid,
            "thorough_cmd": "./check %s --tier thorough" % pid,
            "evidence_file": "/verif/evidence/%s.json" % pid,
            "replay_cmd_template": "./check %s --replay {path}" % pid,
            "engine": "coq-model",
            "level_claimed": {"category": "proof", "text": c["level_text"], "design_ref": c.get("design_ref", "DESIGN.md §7 " + pid)},
            "level_note": c["level_note"],
            "technique": c["technique"],
        })
    else:
        m["not_applicable"].append({"property_id": pid, "reason": PROPS.NOT_YET.get(pid, "check not built yet in this round; see DESIGN.md §7 for the plan")})
json.dump(m, open(os.path.join(V, "MANIFEST.json"), "w"), indent=1)
print("claimed:", [c["property_id"] for c in m["checks"]])
