#!/usr/bin/env python3
"""showcase.py <cases_file.v> <index>: print what the Coq model computes for one
interpreter case next to what the implementation showed (debugging aid)."""
import sys, os, re, json, subprocess, tempfile, shutil
f, idx = sys.argv[1], int(sys.argv[2])
src = open(f).read()
src = re.sub(r"Definition M :=.*", "", src, flags=re.S)
src += """
Definition showb (b : bytes) : string := (fix go l := match l with [] => EmptyString | x :: r => String (Ascii.ascii_of_N x) (go r) end) b.
Definition pick_case := nth %d cases ([], []).
Eval vm_compute in map (fun o => (o_res o, map showb (o_trace o), map showb (o_vars o), map (map showb) (o_fields o))) (model_of pick_case).
""" % idx
d = tempfile.mkdtemp(prefix="showcase")
open(os.path.join(d, "show.v"), "w").write(src)
out = subprocess.run(["coqc", "-Q", "/verif/coq", "Dec", "-w", "-all", "show.v"], cwd=d, stdout=subprocess.PIPE, stderr=subprocess.STDOUT, text=True).stdout
shutil.rmtree(d)
out = out.replace("%string", "")
print("MODEL:", " ".join(out.split()))
summ = json.load(open(os.path.join(os.path.dirname(f), "summary.json")))
for cf in summ["files"]:
    if cf["file"] == os.path.basename(f):
        c = cf["cases"][idx]
        for j, o in zip(c["jobs"], c["obs"]):
            print("PROG:\n" + j["prog"]); print("DOC:", j["doc"]); print("FAIL:", j["fail"], "GETVARS:", j.get("getvars"))
            print("IMPL: res=%s\n trace=%s\n vars=%s\n fields=%s %s" % (o["res"], o["trace"], o["vars"], o["fields"], o.get("parse_err","")))
