# Table of property theorems: prop(id, title, [(theorem name, lemma, comment)], extra Coq text)
# Used by lib/mkprops.py to generate coq/props/Cxx.v.

prop("C01", "Assignment fidelity: the destination receives exactly the source value", [
    ("text_source_converts", "assign_text_spec", "a textual source (literal, []byte/string field) into any non-float field: the ten-line specification `convert`, which does not mention the assign cascade"),
    ("text_to_int_wraps", "assign_text_int", "decimal text into an integer field: ParseInt's value narrowed to the field's width as Go narrows"),
    ("text_to_uint_wraps", "assign_text_uint", "same for unsigned fields"),
    ("number_node_to_int", "assign_num_node_int", "a JSON number into an integer field"),
    ("number_node_to_uint", "assign_num_node_uint", "a JSON number into an unsigned field"),
    ("node_text_to_string_fields", "assign_node_text", "string / number / bool nodes into string and []byte fields: their text"),
    ("int_to_int", "assign_int_int", "integer values (struct fields, static and loop variables, getter results) into integer fields"),
    ("int_in_range_unchanged", "assign_int_in_range", "an in-range integer arrives unchanged"),
    ("uint_to_uint", "assign_uint_uint", "unsigned values into unsigned fields"),
    ("absent_source_is_noop_or_zero", "assign_absent", "an absent source (nil, the null node, a null in the document) leaves the field alone or zeroes it: never a value from elsewhere"),
    ("vector_to_field_rule", "vector_to_field_rule", "RULE LEVEL, end to end: after a rule `obj.F = jso.path` (F a field of the destination struct of any type, path leading to a present value, no modifiers) the field holds exactly the cascade's conversion of that value -- characterised by the theorems below --, no other object and no variable changes, and the rule succeeds"),
    ("literal_or_path_to_field_rule", "rule_step", "the same for every shape of plain rule -- `obj.F = \"literal\"`, `obj.F = jso.path`, `obj.F = <static variable>`, `obj.F = other.Field`: the rule succeeds, the field holds the cascade's conversion of the value, the object is otherwise as before, no variable, counter or call log changes"),
    ("example_text_to_field", "e_assign_rule", "not vacuous: the text `obj.Status = jso.n`, parsed by the parser model, run on a context with a document and a destination bound, meets the theorem's hypotheses and leaves Status = 42"),
    ("plain_rule_is_lookup_then_write", "follow_plain_assign", "a rule `dst = src` without modifiers is Ctx.get of the source followed by Ctx.set of the destination"),
    ("static_rule_is_set_of_literal", "follow_static_assign", "a rule `dst = literal` is Ctx.set of the literal's text, wherever the rule stands"),
    ("wrap_int_range", "wrap_int_range", "narrowing stays inside the field's range"),
    ("format_parse_int_roundtrip", "format_parse_int", "printing an int64 and parsing it back is the identity (rendering on one side of an assignment, parsing on the other)"),
])

prop("C02", "Non-interference: a rule changes only its own destination", [
    ("independent_rules_any_order", "independent_rules_any_order", "FULL STATEMENT, second sentence: a block of rules `obj.Fi = <source>` -- the source a literal, a document path, a static or context variable holding a Go value, or a field of an object other than the destination -- with pairwise distinct destination fields succeeds in every ordering; every ordering leaves the same objects, variables, counters and call log; in that state each destination field holds exactly what its rule alone writes, every other field of the object and every other object is as before (any user functions, any fuel, any number of rules)"),
    ("context_variables_frame", "decode_binds_only_its_names", "context variables, program level: a decode changes the binding of no name other than those its rules bind (any program, any fuel)"),
    ("independent_block", "independent_block", "the induction behind it: the block leaves the destination object equal to the rules' writes applied one after another and touches nothing else"),
    ("writes_commute", "fold_upd_perm", "a sequence of writes to distinct fields gives the same object in every order (induction over permutations)"),
    ("example_two_rules", "e_block_is_independent", "not vacuous: the parsed program `obj.Id = \"lit\"; obj.Status = jso.n` meets the premises"),
    ("example_three_rules_other_sources", "e_block3_is_independent", "not vacuous for the other source kinds: `obj.Id = ivar; obj.Status = st.Status; obj.Name = \"lit\"` meets the premises, and the reversed program decodes to the same store"),
    ("example_both_orders", "e_both_orders", "and both orders decode to the same object"),
    ("destination_write_frame", "dst_write_frame", "RULE LEVEL: Ctx.set on a destination that is not a context variable changes no variable, counter or log, and no object other than the one the destination's root variable points to"),
    ("field_write_frame", "setwb_frame", "writing a field leaves all variables, counters, trace, break depth, error channel and every other object untouched"),
    ("other_fields_untouched", "oupdate_flat_other", "within an object, the other fields keep their value"),
    ("written_field_holds_value", "oupdate_flat_same", "the written field holds the new value"),
    ("independent_writes_commute", "oupdate_flat_comm", "two rules writing different fields give the same object in either order"),
    ("ctx_rebinding_leaves_others", "ctx_set_get_other", "binding a context variable leaves every other variable as it was"),
    ("argument_evaluation_is_pure", "ctx_get_preserves", "evaluating a source changes no variable, object, counter or trace"),
])

prop("C03", "Conditionals execute exactly the branch the comparison selects", [
    ("cond_selects_branch", "cond_selects_branch", "a plain `if L op R` runs its first child iff the comparison holds, else its second (or nothing)"),
    ("example_condition_literal_left", "e_cond_literal_left", "not vacuous: the parsed condition `if 5 < jso.n {..} else {..}` (literal on the left) meets the premises and its first branch runs"),
    ("right_literal_route", "node_cmp_right_static", "literal on the right: Ctx.cmp(L, op, R)"),
    ("left_literal_route", "node_cmp_left_static", "literal on the left: Ctx.cmp(R, swap op, L)"),
    ("swap_is_mirror", "swap_mirror", "op.Swap is the mirror image of the operator on any three-way comparison"),
    ("literal_left_int_decides", "literal_left_int", "so `lit op v` over integers decides exactly lit op v"),
    ("literal_right_int_decides", "literal_right_int", "and `v op lit` decides v op lit"),
    ("literal_left_string_decides", "literal_left_str", "strings likewise"),
    ("node_literal_left_int", "node_literal_left_int", "a JSON number against a literal on the left"),
    ("node_literal_left_str", "node_literal_left_str", "a JSON string against a literal on the left"),
    ("six_operators_mean_what_they_say", "cmp_by_spec", "==, !=, >, >=, <, <= on integers"),
    ("helper_decides", "cond_helper_decides", "a condition helper's verdict selects the branch"),
    ("verdict_depends_on_operands_only", "node_cmp_core", "the verdict of a comparison (literal on either side or none) is a function of the variables, objects and counters: stale scratch values from earlier rules cannot flip it"),
    ("condok_binds_and_branches", "condok_binds_and_branches", "cond-OK: x and ok bound as returned, branch by the flag"),
    ("verdict_ignores_stale_scratch", "cmp_verdict_ignores_bufBl", "the verdict does not depend on what an earlier comparison left in the verdict cell"),
    ("comparison_ignores_scratch", "ctx_cmp_core", "nor on any scratch cell"),
    ("rules_after_run", "rules_cons_ok", "the rules after the conditional run from the state it leaves"),
])

prop("C04", "Counter loops run the body exactly for Go's counter sequence", [
    ("loop_is_go_loop", "cloop_run_is_go_loop", "the loop driver is one body execution per value of Go's counter sequence, in order (int64 wrap-around included), bounds evaluated once; signals and failures cut it short as run_iters says"),
    ("false_at_entry_runs_nothing", "cloop_false_at_entry", "a loop whose condition is false at entry executes nothing"),
    ("variable_reads_go_value_everywhere", "counter_reads_go_value_everywhere", "FULL STATEMENT: in every counter loop of every program, whatever its body contains (nested loops, switches, calls), the loop variable reads Go's value of i in every iteration"),
    ("rules_keep_cells_and_log", "follow_keeps", "the induction behind it: a rule, at any fuel, only appends counter cells and only extends the call log"),
    ("variable_reads_go_value", "counter_reads_go_value", "the driver-level statement it instantiates"),
    ("loop_statement", "follow_loopcount", "the loop statement: evaluate, run, report ctx.Err"),
    ("rules_after_loop_run", "rules_cons_ok", "rules after the loop run afterwards"),
])

prop("C05", "Range loops visit every element once, in order, with key and value bound", [
    ("binds_key_and_value", "vloop_binds_key_and_value", "vector arrays: in every iteration k reads the element's index and v the element"),
    ("entered_iterations_are_a_prefix", "vloop_entries_are_a_prefix", "UNCONDITIONAL: whatever the bodies do (break, continue, fail, leave a break depth pending), the iterations entered are those of elements i, i+1, ..., i+m-1 for some m: in order, each element at most once, no gaps, each with its own element"),
    ("visits_all_in_order", "vloop_visits_all", "if, started without a pending break depth, the body neither breaks nor fails nor leaves a depth pending, it runs exactly once per element, in element order"),
    ("example_range_loop", "e_range_visits_all", "not vacuous: for the parsed loop `for k, v := range jso.a { probe(k, v) }` the premise holds from every context without a pending depth, so for every array the body is entered once per element, in order"),
    ("absent_source_zero_iterations", "rloop_absent", "an absent source gives zero iterations and no error"),
    ("unknown_variable_zero_iterations", "rloop_unknown_var", "so does an unknown variable"),
    ("struct_slices_bind", "oloop_binds_key_and_value", "struct slices: same bindings"),
    ("loop_statement", "follow_looprange", "the range-loop statement"),
])

prop("C06", "break / continue / lazybreak steer loops as documented", [
    ("continue_abandons_rest", "body_cons_cont", "continue abandons the rest of the iteration (a lazybreak seen before it survives)"),
    ("break_abandons_rest", "body_cons_break", "break abandons the rest of the iteration"),
    ("lazybreak_lets_iteration_finish", "body_cons_lazy", "lazybreak lets the iteration go on and is remembered"),
    ("continue_after_lazybreak_in_block_is_break", "rules_lz_cons_cont", "a continue that follows a lazybreak inside the same if / switch block ends the iteration and the loop (D42): the block reports a break"),
    ("lazybreak_lets_block_finish", "rules_lz_cons_lazy", "also inside an if / switch block: the rest of the block still runs"),
    ("block_hands_lazybreak_on", "rules_clean", "and the block hands the signal to the loop afterwards"),
    ("rest_of_iteration_not_executed", "body_rest_irrelevant", "what follows a break / continue / failing rule is not executed"),
    ("counter_loop_obeys", "cloop_run_is_go_loop", "counter loops: break / lazybreak end the loop and consume one level of depth, continue goes on (run_iters)"),
    ("pending_depth_ends_enclosing_counter_loop", "cloop_run_pending", "break N: a pending depth ends the enclosing counter loop before its next iteration and consumes one level"),
    ("pending_depth_ends_enclosing_range_loop", "iterate_pending", "same for an enclosing range loop"),
    ("broken_range_loop_runs_nothing", "vloop_broken_trace", "after a break no further element of a vector range loop runs any rule"),
    ("pending_depth_survives_nested_loop", "loop_keeps_pending_depth", "a nested or sibling loop does not erase a pending depth"),
    ("loop_never_returns_signal", "loop_never_returns_signal", "FULL STATEMENT: whatever its body contains, at any fuel, a loop statement never returns break / lazybreak / continue to the rules around it"),
    ("signals_do_not_escape_loops", "loop_result_is_ctx_err", "a loop statement returns ctx.Err, never its body's signal"),
    ("failing_rule_is_not_a_signal", "body_fail_not_signal", "and ctx.Err never carries a signal out of a body"),
    ("signals_unwind_blocks", "follow_block", "blocks (branches, cases) hand their rules' result to the enclosing loop"),
])

prop("C07", "switch executes the first matching case, else default, never more", [
    ("switch_statement_outcome", "switch_statement_outcome", "FULL STATEMENT (classic form): a switch statement does exactly one of -- stop with the error of a case value; run the body of the first case, in source order, whose value equals the subject, and no other body; when no case matches run the default body if there is one, else nothing"),
    ("scan_outcomes_condition_less", "switch_nocond_outcome", "FULL STATEMENT (condition-less form, `switch { case a == b: ... }`): the scan does exactly one of -- run the body of the first case whose comparison or helper holds, and no other; find no match (default arms are skipped by the scan); or stop with the error of a case's operands or helper. Induction over the children, any user functions"),
    ("scan_outcomes", "switch_classic_outcome", "the scan of the cases has exactly these three outcomes (induction over the cases)"),
    ("example_switch", "e_switch_second_case", "not vacuous: a parsed three-arm switch over a document value; the scan passes the first case, matches the second, and only its body runs"),
    ("first_match_runs", "switch_first_match", "classic switch: the body that runs is that of the first case whose comparison holds; later cases are not looked at"),
    ("no_match_runs_nothing", "switch_no_match", "when no case matches nothing has run (only the default may)"),
    ("switch_statement", "follow_switch", "the switch statement: a matching case excludes the default; otherwise the first default runs"),
    ("default_is_a_default_child", "first_default_spec", "the default body is the first child marked default"),
    ("rules_after_run", "rules_cons_ok", "rules after the switch run afterwards"),
])

prop("C14", "A reset or pooled context behaves like a new one", [
    ("reset_is_new_but_verdict_cell", "reset_is_new_but_bufBl", "Reset leaves exactly a new context (same objects), except the verdict cell bufBl"),
    ("reset_core_equals_new", "reset_core_eq_new", "i.e. it agrees with a new context on everything but the scratch cells"),
    ("reused_context_decodes_like_new", "reused_context_decodes_like_new", "FULL STATEMENT: a context with any past, once Reset and given the job's bindings, decodes any program to the same error, objects, variables and call sequence as a new context given the same bindings (any fuel, any user functions)"),
    ("example_dirty_scratch", "e_scratch", "not vacuous: a context with a stale verdict and a stale scratch value agrees with the clean one on everything else and decodes a parsed program to the same result"),
    ("every_rule_ignores_scratch", "follow_respects", "the induction behind it: followRule, at every fuel, maps contexts that differ only in scratch cells to contexts that differ only in scratch cells, with the same error"),
    ("comparison_ignores_scratch", "ctx_cmp_core", "comparisons do not read the incoming scratch cells"),
    ("lookup_ignores_scratch", "ctx_get_core", "nor do lookups"),
    ("arguments_ignore_scratch", "collect_args_core", "nor argument vectors"),
    ("stale_verdict_cannot_survive", "ctx_cmp_found_full", "after a comparison the whole context is the same whatever the cells held"),
    ("pool_objects_in_one_place", "prun_inv", "internal pools: after any history of AcquireFrom / Reset over any number of contexts every object is in exactly one place (a free list or one context)"),
    ("never_handed_out_twice", "never_handed_out_twice", "so an object is never handed out while someone holds it"),
    ("reset_returns_all", "reset_returns_all", "Reset resets and puts back exactly the objects the context borrowed, once each, in order"),
    ("reset_holds_nothing", "reset_holds_nothing", "and holds nothing afterwards"),
    ("released_context_is_reset_first", "ctxpool_resets_before_pooling", "CtxPool.Put (calls regenerated from ctx_pool.go on every run) resets the context, which returns its borrowed objects, before it hands the context to the pool"),
    ("unknown_pool_is_noop", "acquire_unknown", "an unknown pool name acquires nothing"),
], imports=IMPORTS + "From Dec Require Import AuditDefs.\nFrom Dec.generated Require Import Audit.\nFrom Dec.proofs Require Import AuditFacts.\n")

prop("C15", "A failing rule stops the decode and the failure is reported", [
    ("user_error_is_last_call", "user_error_is_last_call", "FULL STATEMENT (calls): for every program and fuel, with user functions that report their own call number, a decode that returns a user function's error made no call after the failing one -- no callback, getter, modifier or helper of any later rule, iteration or case"),
    ("failure_is_never_swallowed", "failure_is_never_swallowed", "FULL STATEMENT (no swallow): every call is logged and the entry of a call that returned an error carries a mark; with user functions whose only errors are their own, a decode that returns anything but a user function's error -- nil, a signal, an internal error -- has no marked entry in its log: whenever a callback, getter, modifier or condition helper fails, however deeply buried, Decode returns a user function's error (by user_error_is_last_call that of the last call made, i.e. of the first that failed)"),
    ("example_program_with_injected_failure", "e_program", "not vacuous: a parsed loop / condition / call program on a calm context with an empty log, the harness's user functions honest and strict; fault-free it makes two calls and succeeds, with call 1 failing Decode returns that error, made no further call and did not run the rule after the loop"),
    ("success_means_no_call_failed", "success_means_no_call_failed", "in particular a successful decode"),
    ("every_rule_reports_failures", "follow_sound2", "the induction behind it, through every driver"),
    ("harness_functions_are_strict", "testU_strict", "the hypothesis holds of the harness's user functions (whose Go twins write the same mark into the trace the correspondence compares)"),
    ("user_error_in_ctx_is_returned", "user_error_in_ctx_is_returned", "NO MASKING: whatever construct a failing call is buried in (loop, switch, block, modifier chain, helper guard), if ctx.Err holds a user function's error when a rule ends, the rule returns exactly that error"),
    ("decode_returns_user_error", "decode_returns_user_error", "and so does the decode"),
    ("helper_failure_fails_the_rule", "cond_helper_failure", "a condition helper that reports a failure through ctx.Err fails its rule with it"),
    ("every_rule_keeps_error_channel_sound", "follow_sound", "the induction behind it: from a context whose ctx.Err is nil or internal, every rule leaves ctx.Err free of signals and holding a user error only if that call was the last; every result other than a user error leaves it calm"),
    ("harness_functions_are_honest", "testU_honest", "the hypothesis holds of the user functions the correspondence runs"),
    ("injected_failure_is_last_call", "injected_failure_is_last_call", "hence for every job of the harness"),
    ("success_leaves_no_user_error", "success_leaves_no_user_error", "a successful decode leaves no error behind"),
    ("sequence_stops_at_failure", "rules_cons_err", "a failing rule ends the rule sequence with its error; nothing after it runs"),
    ("error_is_first_failure", "rules_err_prefix", "the error of a sequence is that of its first failing rule, whatever follows"),
    ("body_reports_failure", "body_cons_fail", "inside a loop body the failure is kept as such"),
    ("counter_loop_stops", "cloop_fail_stops", "a counter loop ends at once with the error in ctx.Err"),
    ("range_loop_stops", "iterate_fail_stops", "a range loop is marked broken with the error in ctx.Err"),
    ("broken_range_loop_calls_nothing", "vloop_broken_trace", "and calls no user function for the remaining elements"),
    ("loop_reports_ctx_err", "loop_result_is_ctx_err", "the loop statement returns that error"),
    ("callback_error_is_returned", "follow_callback", "a callback's own error is what the rule returns"),
    ("missing_helper_fails", "cond_helper_missing", "an unregistered condition helper fails the rule"),
    ("non_numeric_bound_fails", "cloop_range_not_number", "a loop bound that is not a number fails the loop"),
    ("bad_literal_bound_fails", "cloop_range_bad_literal", "so does a literal that does not parse"),
    ("what_is_not_a_number", "iface2int_rejects", "nil, booleans, string / null / object nodes are not numbers"),
])

prop("C16", "Decode never panics, whatever the accepted program and the input", [
    ("finite_programs_terminate", "finite_programs_terminate", "FULL STATEMENT (the model's side of `Decode returns whenever the loops are finite`): for every tree that fits the fuel -- the fuel exceeds the nesting depth and every counter loop has literal bounds whose Go iteration count is below the fuel it is run with; range loops need nothing -- every context whose error channel is not already out-of-fuel, and all user functions that do not forge that error, decode never reports out-of-fuel: the out-of-fuel outcome comes from nowhere but the fuel (induction on fuel through every driver and every helper of the decode path)"),
    ("range_programs_terminate", "range_programs_terminate", "in particular a program without counter loops returns for any fuel above the nesting depth of its tree: range loops always terminate"),
    ("result_does_not_depend_on_fuel", "decode_fuel_stable", "FUEL STABILITY: a decode that does not end out of fuel gives exactly the same context and result with any larger fuel (fifth induction on fuel through every driver): the fuel is only a recursion bound, and the result the any-fuel theorems speak about is one result"),
    ("two_sufficient_fuels_agree", "decode_result_unique", "so any two fuels that are enough give the same context and result"),
    ("finite_programs_result_is_fuel_independent", "finite_programs_result_is_fuel_independent", "and for a tree that fits fuel f every larger fuel gives what f gives"),
    ("counter_loop_needs_go_many_steps", "cloop_run_cl", "a counter loop (any bounds, literal or not) runs out of fuel k only if Go's loop over the same header makes at least k iterations"),
    ("harness_user_functions_are_fair", "testU_fair", "the harness's user functions never forge the out-of-fuel error"),
    ("example_program_fits", "e_program_fits", "not vacuous: the parsed program with a counter loop, a condition and a call fits fuel 8; fuel 50 gives what fuel 8 gives"),
    ("rule_sequence_total", "rules_lz_app", "the model is a total function of tree, document and context: every list access of the decode path is a guarded match (no panic outcome exists in [err] besides the observation-only constructors)"),
    ("out_of_fuel_is_explicit", "follow_0", "running out of fuel is a distinguished error, excluded by the correspondence on Go-finite loops"),
    ("default_without_args_is_an_error", "default_arity", "default() without arguments is an error, not an index panic"),
    ("getters_without_args_are_errors", "getter_arity", "every builtin getter without arguments is an error"),
    ("ifthen_arity", "ifthen_arity", "ifThen() likewise"),
    ("ifthenelse_arity", "ifthenelse_arity", "ifThenElse(x) likewise"),
    ("unknown_variable_loop_is_noop", "rloop_unknown_var", "a range loop over an unknown variable is a no-op"),
])

prop("C17", "Calls get the written arguments; modifier chains and coalesce evaluate in order", [
    ("arguments_exact", "collect_args_exact", "the vector handed to a function is the list of the written arguments' values, in order, each evaluated on its own; evaluation changes nothing but scratch cells"),
    ("argument_value_depends_on_state_only", "arg_value_stable", "an argument's value depends on variables, objects and counters only"),
    ("coalesce_first_present", "coalesce_first_present", "a coalesce source evaluates to the first listed key that is present and not null"),
    ("modifier_chain_runs_left_to_right", "run_mods_is_the_chain", "`src|m1(..)|m2(..)` over user-registered modifiers: the value of the chain is the left-to-right fold in which each modifier receives the previous stage's result and its own written arguments evaluated at call time (call numbers n, n+1, ...)"),
    ("chain_depends_on_state_only", "chain_stable", "and that fold depends on variables, objects and counters only"),
    ("callback_receives_arguments", "follow_callback", "a callback is invoked with that vector"),
])

prop("C18", "Builtin modifiers and getters compute what their documentation says", [
    ("builtin_names_are_init_registrations", "registrations_agree_with_model", "every name and alias that init() registers (list regenerated from init.go on every run) is bound in the model to the model of the Go function it is registered with"),
    ("no_unregistered_modifier", "model_mods_are_registered", "the model knows no built-in modifier name that init() does not register"),
    ("no_unregistered_getter", "model_getters_are_registered", "nor getter"),
    ("default_passes_nonempty", "default_passes", "default(x) passes every non-empty value through unchanged"),
    ("default_replaces_empty", "default_replaces", "and yields x for an empty one"),
    ("emptiness_classes", "empty_classes", "what is empty: absent / null node, empty string or bytes (also as a node), zero, false; what is not"),
    ("default_arity", "default_arity", "default() fails"),
    ("ifthen", "ifthen_spec", "ifThen selects by the truth of the incoming value"),
    ("ifthen_arity", "ifthen_arity", "ifThen() fails"),
    ("ifthenelse", "ifthenelse_spec", "ifThenElse selects by the truth of the incoming value"),
    ("ifthenelse_arity", "ifthenelse_arity", "ifThenElse with fewer than two arguments fails"),
    ("atoi_is_parseint", "atoi_is_parseint", "atoi is strconv.ParseInt(s, 10, 64), failing exactly when it fails"),
    ("atou_is_parseuint", "atou_is_parseuint", "atou is strconv.ParseUint(s, 10, 64)"),
    ("atob_is_parsebool", "atob_is_parsebool", "atob is strconv.ParseBool"),
    ("atox_of_string_node", "atox_node", "a string node is its text"),
    ("itoa_formats", "itoa_formats", "itoa renders as strconv.FormatInt"),
    ("utoa_formats", "utoa_formats", "utoa renders as strconv.FormatUint"),
    ("format_parse_int_roundtrip", "format_parse_int", "FormatInt then ParseInt is the identity on all of int64"),
    ("format_parse_uint_roundtrip", "format_parse_uint", "same for uint64"),
    ("crc32_is_ieee_of_concatenation", "crc32_concat", "crc32 is the IEEE CRC-32 of the concatenation of its arguments"),
    ("crc32_of_nothing_is_zero", "crc32_empty_is_zero", "including the empty concatenation"),
    ("getter_arity", "getter_arity", "every getter fails without arguments"),
])

prop("C19", "Context variables form a last-write-wins store visible to later rules", [
    ("decode_binds_only_its_names", "decode_binds_only_its_names", "FULL STATEMENT (programs): a decode of any program, at any fuel, with any user functions, changes the binding of no name other than those its rules bind -- `ctx.name` destinations, loop counters, range keys and values, the two names of a cond-OK header (sixth induction on fuel through every driver: rebinding one name never disturbs another, for whole programs)"),
    ("example_program_names", "e_program_keeps_other_names", "not vacuous: the parsed example program binds `i` and leaves `jso` and `obj` bound as they were"),
    ("latest_binding_wins_in_every_history", "latest_binding_wins_in_every_history", "FULL STATEMENT (API histories): after any sequence of Set / SetStatic / SetVector / SetVectorNode and Reset calls a name resolves to its latest binding since the last Reset, whatever was done to other names (refinement of the context to an abstract map, induction over the history)"),
    ("context_refines_a_map", "ctx_is_a_map", "the refinement itself: the abstraction of the context after a history is the abstract map the history builds"),
    ("other_names_do_not_matter", "other_names_do_not_matter", "a history that only binds other names leaves a name's binding as it was"),
    ("history_example", "history_example", "not vacuous: a five-call history with a rebinding and a Reset"),
    ("rule_binds_name", "ctx_rule_binds", "a rule `ctx.name = expr` binds name to the value of expr: vector inspector for nodes, static otherwise (null / absent nodes bind nothing)"),
    ("rule_binds_name_as_T", "ctx_rule_binds_as", "with `as T` / `.(T)` the registered inspector T"),
    ("unknown_inspector_is_error", "ctx_rule_unknown_ins", "an unregistered T is an error and binds nothing"),
    ("binding_visible_others_untouched", "ctx_rule_visible", "later rules resolve the name against that binding; no other name is disturbed"),
    ("latest_binding_wins", "ctx_set_get_same", "Set binds or rebinds: the latest binding wins"),
    ("rebinding_leaves_others", "ctx_set_get_other", "rebinding one name never disturbs another"),
    ("reset_unbinds_all", "reset_unbinds", "Reset unbinds everything"),
    ("get_of_unbound_is_nil", "get_unbound", "Get of an unbound name yields nil without error"),
    ("lookup_is_pure", "ctx_get_preserves", "looking a variable up changes no binding"),
])

prop("C08", "Parse is total: a tree or an error, never a panic, hang or silent acceptance", [
    ("parse_terminates", "parse_fuel_sufficient", "for every byte string, every nesting depth and every offset: with fuel above the number of bytes left the parser never runs out of fuel (each control line consumes at least one byte; a nested block that ends without error has consumed its closing brace and restored the counters)"),
    ("parse_api_terminates", "parse_pure_terminates", "so Parse itself, run with fuel length+2, terminates with a tree or an error"),
    ("control_line_is_nonempty_prefix", "next_ctl_spec", "the line cutter returns a non-empty prefix of the text at an offset that does not move backwards"),
    ("every_step_progresses", "process_progress", "processCtl: a statement or nested block advances the offset and restores the counters, a closing brace consumes one byte, an error is an error"),
    ("nested_blocks_restore_counters", "parse_nested_ok", "a nested block that ends without error has reached its target"),
    ("accepted_is_balanced", "accepted_is_balanced_computed", "FULL STATEMENT: for every byte string, if Parse returns no error then the text's control lines (cut and classified exactly as the parser does) are balanced: the depth never goes below zero, an else only occurs inside an open block, the depth is zero at the end"),
    ("unbalanced_is_rejected", "unbalanced_is_rejected", "its contrapositive, as the property words it: a missing closing brace, a surplus closing brace, an else with no open block -- anywhere, under any nesting -- is rejected"),
    ("accepted_is_balanced_rel", "accepted_is_balanced", "the same for the relational reading of the text (no fuel)"),
    ("every_text_has_its_lines", "Toks_total", "which exists for every text"),
    ("and_only_one", "Toks_det", "and is unique"),
    ("opener_must_end_in_its_brace", "opener_without_brace_rejected", "and a line taken for an opener that does not end in `{` (a deleted opening brace) is rejected, whatever braces the line itself contains"),
    ("nested_block_is_body_then_closer", "parse_block", "the induction behind it: a nested block that parses without error is a balanced body followed by its closer"),
    ("balanced_example", "ex_ok_tokens", "not vacuous: an if / else / nested loop text, its seven control lines, accepted"),
    ("unbalanced_examples", "ex_unbalanced_tokens", "and three unbalanced texts"),
    ("surplus_closing_brace_rejected", "surplus_close_rejected", "a closing brace with no open block is rejected with ErrUnexpectedClose"),
    ("surplus_closing_brace_line", "surplus_close_line", "the line `}` at top level, regular expressions evaluated"),
    ("stray_else_rejected", "stray_else_line", "`} else {` with no open block is rejected"),
    ("unclosed_block_rejected", "eof_in_block_rejected", "end of input inside an open block is rejected with ErrUnbalancedCtl"),
    ("unregistered_callback_rejected", "unknown_callback_rejected", "a call line naming no registered callback is rejected"),
    ("regex_groups_always_there", "re_find_length", "a successful regular-expression match has exactly ncap+1 groups: the m[i] of the parser never index out of range"),
    ("regex_engine_terminates", "re_exec_fuel", "the model of the regexp engine never runs out of fuel"),
], imports=PARSER_IMPORTS)

prop("C09", "The parsed tree reflects the program, not its layout", [
    ("same_lines_same_tree", "same_lines_same_tree_computed", "FULL STATEMENT (line level): the parsed tree and the error are a function of the sequence of control lines -- two texts that are cut into the same control lines (blanks at line ends dropped) parse identically, whatever else differs between them: indentation, blank lines, LF or CR LF, `;` after statements, a final newline or none (induction on fuel through processCtl and the nested parser, the two sides running on different offsets and fuel)"),
    ("same_lines_same_tree_rel", "same_lines_same_tree", "the same for the relational reading of the texts"),
    ("layout_example", "layout_example", "not vacuous: a canonical text and a CR LF / tabs / blank lines / `;` / trailing blanks / no-final-newline layout of it have the same eight control lines, hence the same tree"),
    ("leading_layout_skipped", "skip_fmt_layout", "indentation with blanks or tabs, blank lines, LF or CRLF line ends and `;` before a statement are skipped"),
    ("layout_only_tail_is_end_of_input", "skip_fmt_none_all", "a tail of layout bytes (with or without a final newline) is the end of input"),
    ("trailing_blanks_dropped", "trim_right_blank_nonempty", "blanks and tabs at the end of a control line are trimmed and never empty the line"),
    ("comments_produce_no_node", "comment_skipped", "whole-line # comments are consumed without a node (// likewise, by the same branch)"),
    ("control_line_cut", "next_ctl_spec", "a control line is cut out of the text at the first non-layout byte"),
    ("statement_same_before_LF_or_CR", "stmt_cut_at_line_end", "a statement (no braces, no semicolon) followed by LF or CR -- hence also CR LF -- is cut out as exactly that statement"),
    ("statement_same_at_end_of_text", "stmt_cut_at_eof", "the same statement at the very end of the text, without a final newline"),
    ("statement_same_before_semicolon", "stmt_cut_at_semicolon", "and followed by `;` and anything brace-free up to the end of the line"),
    ("comment_line_is_opaque", "comment_line_is_opaque", "a whole-line // or # comment is one control line whatever it contains -- braces, semicolons, text that looks like code (D45)"),
    ("header_cut_at_its_brace", "header_cut_at_brace", "a block header is cut at its opening brace (the first one not preceded by a dot), whatever follows on the line"),
], imports=PARSER_IMPORTS)

prop("C20", "Parse is a pure function of the rule text", [
    ("parse_ignores_registry", "parse_ignores_registry", "whatever the registry holds (trees that Parse returned earlier, hand-made zero trees), Parse returns what parsing the text returns"),
    ("history_parses_are_pure", "history_parses_are_pure", "in every history of Parse / Register* calls each Parse returns exactly the result of parsing its text"),
    ("from_empty_registry", "history_from_empty_registry", "in particular from the empty registry"),
    ("parsed_trees_are_well_formed", "mk_tree_wf", "a tree records a text only if it is the tree of that text"),
    ("registration_keeps_registry_well_formed", "set_wf", "registering a well-formed tree keeps the registry well formed"),
    ("parse_terminates", "parse_pure_terminates", "and Parse terminates"),
    ("no_shared_state_besides_the_registries", "no_package_level_stores", "the audit regenerated from the working tree: no function other than init and the Register* family stores to a package-level variable (a scratch buffer shared by concurrent Parse or Decode calls would show here)"),
    ("parse_never_stores_into_its_input", "parse_src_writes_nil", "the audit regenerated from parser.go: no statement stores into the source bytes (or into slices of them)"),
], imports=PARSER_IMPORTS)

CONC_IMPORTS = """From Coq Require Import List NArith ZArith Bool String Arith.
From Dec Require Import Bytes AuditDefs Conc Alloc Db DbSpec.
From Dec.generated Require Import Audit.
From Dec.proofs Require Import ConcProofs AllocProofs DbProofs AuditFacts.
Import ListNotations.
"""

prop("C10", "A registered decoder is safe to share between goroutines", [
    ("goroutines_do_not_influence_each_other", "projection_solo", "N goroutines with private states (context, source, destination, trace) over shared immutable data: under every schedule each goroutine ends exactly where its own steps alone lead"),
    ("schedule_irrelevant", "schedule_irrelevant", "two schedules giving a goroutine the same number of steps agree on it"),
    ("decode_path_never_stores_through_the_tree", "decode_path_tree_writes_nil", "the audit regenerated from the working tree: no statement on the decode path stores through a node, Tree, arg or mod"),
    ("no_shared_state_besides_the_registries", "no_package_level_stores", "the audit regenerated from the working tree: no function other than init and the Register* family stores to a package-level variable (a scratch buffer shared by concurrent Parse or Decode calls would show here)"),
    ("pool_resets_before_sharing", "ctxpool_resets_before_pooling", "CtxPool.Put resets the context before handing it to the pool (regenerated from ctx_pool.go): a pooled context is never reset while another goroutine may already hold it"),
], imports=CONC_IMPORTS)

prop("C11", "Steady-state decoding performs no heap allocation", [
    ("second_identical_run_allocates_nothing", "steady_state_no_growth", "buffers whose capacities survive Reset: serving the same trace of demands again allocates nothing"),
    ("capacities_are_stable", "steady_state_caps_stable", "and leaves the capacities as they are"),
    ("smaller_runs_allocate_nothing", "dominated_run_no_alloc", "any run whose demands are dominated allocates nothing either"),
    ("capacities_cover_what_was_served", "caps_after_covers", "after a run the capacities cover every demand of that run"),
    ("growing_demand_is_the_hazard", "growing_demand_allocates", "a demand that grows from run to run (a length Reset forgets to truncate) allocates: what the capacity snapshots look for"),
    ("repetitions_make_the_same_demands", "repetitions_make_the_same_demands", "the link to the interpreter: two repetitions Reset - bind - Decode of one program over the same objects demand the same number of literal slots and the same counter cells and return the same result, whatever the context went through before (from the scratch-irrelevance induction of C14)"),
], imports=CONC_IMPORTS + "From Dec Require Import Strconv Crc Values Tree Interp.\nFrom Dec.proofs Require Import InterpFacts InterpFacts2 InterpFacts3 FollowCore.\n")

prop("C13", "Registering and decoding concurrently is race-free and linearizable", [
    ("lock_discipline_of_db_go", "lock_discipline_holds", "the lock structure regenerated from db.go: every access to idxID / idxKey / idxHash / buf lies in a lock region, writes under the write lock, no locking method called while the lock is held, every path releases the lock"),
    ("one_critical_section_per_method", "every_db_method_is_one_critical_section", "regenerated from db.go: on every path each method of the registry takes the lock at most once, so its lookup and its update lie in one critical section (what the concurrency model below assumes of a writer operation; a registration that finds the slot under one lock and writes it under another is not atomic)"),
    ("no_shared_state_besides_the_registries", "no_package_level_stores", "the audit regenerated from the working tree: no function other than init and the Register* family stores to a package-level variable (a scratch buffer shared by concurrent Parse or Decode calls would show here)"),
    ("registry_fields_only_touched_in_db_go", "registry_fields_private", "and nothing outside db.go touches those fields"),
    ("lock_invariant", "exec_inv", "a readers-writer lock around a shared value, writer operations non-atomic sequences of primitive writes, arbitrary schedules: the invariant of every reachable configuration"),
    ("reader_sees_complete_states", "reader_sees_complete_states", "every read of a finished reader saw the value exactly as a prefix of the completed writer operations left it (never a half-installed one), and all its reads saw the same value"),
    ("quiescent_value_is_serial", "quiescent_value_is_serial", "whenever no writer holds the lock the shared value is the result of the completed writer operations in lock-release order: writers are linearized at their critical sections"),
    ("sequential_registry_is_correct", "db_refines_spec", "and the sequential registry refines the abstract one (C12)"),
], imports=CONC_IMPORTS)
