"""Per-property configuration of the runner."""

TRUSTED_BASE = [
    "Coq 8.16.1 kernel and vm_compute (no native_compute); full .vo build via coq_makefile/make",
    "no axioms declared; Print Assumptions of every property theorem is copied into this file",
    "translator (harness/cmd/vharness translate*.go, audit.go): go/parser based extraction of constants, op.Swap/op.String tables, regular expressions (via regexp/syntax), the Register* calls of init(), lock / tree-write / source-write / package-level-store audits, the calls of CtxPool.Put",
    "thorough tier: coqchk -o over the compiled property file and its whole closure (must report Axioms: <none>)",
    "hypotheses of the program-level theorems about user-registered functions (honest / strict: a function's error is EUser of its own call number, never a loop signal) are proved of the harness's functions (testU_honest, testU_strict); the Go twins of those functions are trusted to behave as their Coq definitions (checked by the correspondence on every case)",
    "correspondence harness (harness/cmd/vharness), its canonicalisation of observables, the verif-tagged read-only hooks in /repo/verif_hooks.go, and this runner",
    "modelled, not verified: Go runtime, regexp engine, strconv, hash/crc32, hash/crc64, sync primitives, and the dependencies inspector, vector, jsonvector, vector_inspector, x2bytes, bytebuf, bytealg",
]

PROPS = {
    "C12": {
        "case_modules": ["theories/CasesDb.v"],
        "technique": "Coq refinement proof (registry model of db.go refines an abstract id/key map on all valid histories) + exhaustive bounded differential replay of register histories against the real registry, evaluated in Coq by vm_compute",
        "level_text": "Theorems C12_* (props/C12.v): for every finite valid history the model of db.set/get/getKey1 answers every lookup exactly as a 20-line abstract registry does, which in turn satisfies latest-wins, partner sharing, others-unaffected and not-found. The model is tied to db.go by replaying every register history up to a bound on the real registry (reset through a verif hook) and comparing the full lookup table after every call, inside Coq.",
        "level_note": "Unbounded: the proof. Bounded: the correspondence (history length 4 quick / 6 thorough over ids {0,1}, keys {a,b}). Trusted: Coq kernel + vm_compute, the harness and hooks, Go maps as partial functions.",
        "assumptions": [
            "ids are non-negative, keys differ from \"-1\", and a paired identifier is never registered with a different partner (the property's own domain)",
            "Go maps behave as partial functions; sync.RWMutex serialises set/get (single-threaded histories here; schedules are C13)",
        ],
    },
}


def _interp(pid, what, bounded, extra_assume=None, note=None):
    PROPS[pid] = {
        "case_modules": ["theories/CasesInterp.v"],
        "technique": "Coq theorems about the executable interpreter model (follow / loop drivers / Ctx primitives) + differential correspondence: generated programs run on the real decoder (tree taken from the real parser through a verif hook) and on the model by vm_compute, all observables compared",
        "level_text": what,
        "level_note": (note or "") + "Unbounded: the theorems (any program, document, context, fuel). Bounded: the correspondence (" + bounded + "). Modelled, not verified: the dependency behaviours listed in DESIGN.md 3.4 (inspectors, assign cascade, vector, x2bytes), Go runtime. Floats are compared as short decimal texts only.",
        "assumptions": [
            "dependency behaviour (inspector, testobj_ins, vector, vector_inspector, x2bytes, bytebuf) is as transcribed in coq/theories/Interp.v and Values.v; checked differentially on every run",
            "generators stay inside the modelled domain: in-range array indexes (D25), no range over childless JSON nodes (KF-C05-childless), floats with at most 15 significant digits, no loop variable aliased into a context variable or []byte field (D24)",
        ] + (extra_assume or []),
    }

_interp("C01", "Theorems C01_*: C01_vector_to_field_rule (rule level, end to end): after `obj.F = jso.path` the field holds the cascade's conversion of the value at the path, nothing else changes and the rule succeeds; the assign cascade, reached through Ctx.set, puts into a destination of each kind exactly `convert` of the source's text / the source integer narrowed as Go narrows; absent sources leave the field alone or zero it. Tied to the code by running assignment-heavy programs over every source kind x destination kind on the real decoder and in the model.",
        "220 programs quick / 2500 thorough per seed")
_interp("C02", "Theorems C02_*: a field write touches one field of one object and nothing else in the context; writes to different fields commute; evaluation of sources is pure; and at program level (C02_independent_rules_any_order) a block of rules `obj.Fi = <literal | document path | static or context variable | field of another object>` with pairwise distinct destination fields succeeds in every ordering, every ordering ends in the same objects, variables, counters and call log, each destination holds what its rule alone writes and nothing else changed (any number of rules, any user functions, any fuel; getter / modifier sources are covered per rule). Literal and getter results are values in the model; that the code does not alias them is what the correspondence (all permutations of independent rules, literal lengths 1..33) checks, with a direct oracle on the real decoder comparing all orderings.",
        "every permutation of 2-4 independent rules (fresh objects; context variables also on a recycled context), 260 cases quick / 2600 thorough")
_interp("C03", "Theorems C03_*: a plain condition runs exactly the branch node_cmp selects; the literal-left route through op.Swap decides lit op v (mirror law proved for all six operators, integers and strings, struct / static / vector operands); helper and cond-OK forms branch on the helper's result; the verdict of any comparison is a function of variables, objects and counters only (node_cmp_core), so stale scratch values cannot flip it.",
        "220 programs quick / 2500 thorough")
_interp("C04", "Theorems C04_*: for valid headers the counter-loop driver equals one body execution per element of Go's counter sequence (int64 wrap included), nothing when the condition is false at entry, and (C04_variable_reads_go_value_everywhere, from the fuel induction follow_keeps through every driver) in every counter loop of every program, whatever its body, the loop variable reads that element in every iteration.",
        "220 programs quick / 2500 thorough; Go-finite headers only")
_interp("C05", "Theorems C05_*: in every iteration of a range loop over a vector array or struct slice the key variable reads the index and the value variable the element; whatever the bodies do, the iterations entered are those of a prefix of the elements, in order, once each (C05_entered_iterations_are_a_prefix); without signals the body runs once per element; absent sources give zero iterations.",
        "220 programs quick / 2500 thorough", ["range over an EMPTY JSON array/object, a scalar or a literal null executes one iteration on an unrelated node in the vector dependency: known finding KF-C05-childless, replayed on every run, excluded from the theorems (the model answers EUnsupported)"])
_interp("C06", "Theorems C06_*: continue / break abandon the rest of the iteration, lazybreak lets it finish; a pending break depth ends each enclosing loop before its next iteration and is consumed one level per loop, survives nested and sibling loops; and (C06_loop_never_returns_signal, from the fuel induction follow_sound) at any fuel, whatever the body, a loop statement never returns a loop signal to the rules around it.",
        "260 programs quick / 3000 thorough")
_interp("C07", "Theorems C07_*: C07_switch_statement_outcome -- a classic switch statement does exactly one of: stop with the error of a case value, run the body of the first matching case and no other, run the default body when nothing matches and there is one, nothing; a classic switch runs the body of the first case whose comparison holds and looks at nothing after it; with no match only the first default runs.",
        "220 programs quick / 2500 thorough")
_interp("C14", "Theorems C14_*: C14_reused_context_decodes_like_new -- a context with any past, once Reset and given the job's bindings, decodes any program at any fuel with any user functions to the same error, objects, variables and call sequence as a new context (Reset leaves a new context except the verdict cell bufBl; follow_respects, an induction on fuel through every driver, shows that no rule reads the incoming scratch cells). Job sequences on one context are run on the real decoder and compared job by job with the model and, as a direct oracle, with a newly created context.",
        "160 job sequences + 300 pool histories quick / 1800 + 5000 thorough")
PROPS["C14"]["case_modules"] = ["theories/CasesInterp.v", "theories/CasesPool.v"]
_interp("C15", "Theorems C15_*: a failing rule ends the rule sequence, the loop body, the counter loop and the range loop at once with its error, and the loop statement returns it; missing helpers and non-numeric bounds are errors; C15_user_error_is_last_call: with user functions that report their call number (proved of the harness's), a decode that returns a user function's error made no call after the failing one, in any rule, iteration or case (follow_sound, an invariant of ctx.Err by induction on fuel); C15_failure_is_never_swallowed: a decode that returns anything but a user function's error has no failed call in its log (failed calls are marked in the log by model and harness alike), so a failing callback, getter, modifier or condition helper always makes Decode return a user function's error. For generated programs every k-th user call is made to fail on the real decoder; oracle: Decode returns that error and the call trace is the fault-free prefix.",
        "320 runs quick / 4000 thorough (every k up to 12 per program)")
_interp("C16", "The model has no panic outcome: every list access of the decode path is a guarded match, arity errors are errors (C16_* theorems). That the code has no further panic site is decided by running parser-accepted programs from a malformed stream on the real decoder under recover and a watchdog (direct oracle) and comparing with the model.",
        "300 programs quick / 4000 thorough",
        note="PARTIAL on the proof side: Go panics (nil interface, slice bounds inside dependencies) are runtime facts the model cannot exhibit; they are searched for, not proved absent. ")
_interp("C17", "Theorems C17_*: the vector handed to a function is exactly the list of the written arguments' values, in order, each evaluated on its own (earlier arguments cannot influence later ones); a coalesce source is the first listed key that is present and not null; a chain of user modifiers is the left-to-right fold, each stage receiving the previous result (C17_modifier_chain_runs_left_to_right).",
        "220 programs quick / 2500 thorough")
_interp("C18", "Theorems C18_*: default / ifThen / ifThenElse by emptiness and truth classes; atoi / atou / atob are strconv's parsers (Gallina re-implementations proved to round-trip with FormatInt / FormatUint on all of int64 / uint64), itoa / utoa format, crc32 is IEEE CRC-32 of the concatenation; arity errors; the builtin names are exactly those init() registers (Builtins.v regenerated from init.go, BuiltinFacts).",
        "260 programs quick / 3000 thorough; the model's atof covers plain decimals only: atoi / atou / atof / atob are in addition compared with strconv directly (same value, same kind of error exactly when strconv fails) on curated boundary texts and 400 (quick) / 20000 (thorough) random texts, as vector node, static string and literal arguments", ["strconv and hash/crc32 are re-implemented in Gallina (theories/Strconv.v, Crc.v) and compared with Go's on ~20k strings by harness/sctest.sh"])
_interp("C19", "Theorems C19_*: Set is update-or-claim over a list read by first match: the latest binding wins, other names are untouched, Reset unbinds, Get of an unbound name is nil, lookups are pure.",
        "220 job sequences quick / 2500 thorough")

def _parser(pid, what, bounded, mods=None):
    PROPS[pid] = {
        "case_modules": ["theories/CasesParser.v"],
        "technique": "Coq theorems about the executable parser model (line cutter, regex cascade over regular expressions regenerated from parser.go by the translator, block recursion, registry shortcut) + differential correspondence: texts parsed by the real Parse (tree read through a verif hook) and by the model under vm_compute",
        "level_text": what,
        "level_note": "Unbounded: the theorems (every byte string, nesting depth, registry). Bounded: the correspondence (" + bounded + "). The regular expressions are translated by Go's own regexp/syntax (Parse+Simplify) into terms the model's matcher interprets; the matcher mirrors Go's regexp engine and is checked differentially (harness/retest.sh, ~40k cases), not derived. Trusted: translator, harness, hooks.",
        "assumptions": ["the Coq regexp matcher (theories/Regex.v) agrees with Go's regexp engine on the parser's expressions (differentially tested)",
                        "registered function names are those reported by the verif hook at the time of the run"],
    }


_parser("C08", "Theorems C08_*: the parser model terminates on every byte string with fuel length+2 (proved through a progress lemma for every branch of processCtl), C08_accepted_is_balanced: for every byte string, if Parse returns no error the text's control lines (cut and classified as the parser does) are balanced -- so a missing or surplus closing brace or an else with no open block is rejected anywhere, under any nesting; a deleted opening brace is rejected by C08_opener_must_end_in_its_brace; an unregistered callback is rejected. Byte strings (random, token soups, mutations of fixtures and generated programs, every single-brace edit) are run through the real Parse under recover and a watchdog (direct oracle: tree or error; unbalanced programs rejected) and a sample through the model.",
        "4400 texts quick / 60000 thorough on the real parser, 180 / 6000 in the model")
_parser("C09", "Theorems C09_*: C09_same_lines_same_tree -- the tree and the error are a function of the sequence of control lines: two texts cut into the same control lines parse identically whatever else differs (indentation, blank lines, LF / CRLF, `;`, final newline); how lines are cut is settled for statements, block headers and comments (LayoutFacts); leading layout, trailing blanks, comment lines and the final newline do not reach processCtl. PARTIAL on the proof side only for spacing inside a line, which is decided by the regular expressions and is covered by the correspondence only: generated programs are rendered in all combinations of ten layout switches, every layout must parse to the canonical tree (direct oracle) and the model must produce the same tree.",
        "40 programs x 15 layouts quick / 400 x 65 thorough")
_parser("C20", "Theorems C20_*: for every registry reachable by registering trees that Parse returned (or hand-made zero trees), Parse returns exactly what parsing the text returns, in every history; and it terminates. Histories of Parse / Register* over texts including the empty text, a blank text and equal-length different texts are replayed on the real package (oracle: same error, structurally identical tree, same decode, bytes untouched) and on the model.",
        "120 histories quick / 2500 thorough")

PROPS["C10"] = {
    "case_modules": ["theories/CasesInterp.v"],
    "race": True,
    "technique": "Coq theorem over an interleaving model (private states, shared immutable tree: every schedule projects to the solo run) + static audit regenerated from the decode path (no store through node/Tree/arg/mod) proved empty + concurrent stress on the real decoder compared with solo decodes and with the model; race detector in the thorough tier",
    "level_text": "Theorem C10_goroutines_do_not_influence_each_other: with private contexts and an immutable shared tree every goroutine's outcome is its solo outcome under every schedule. What entitles the model to treat the tree as immutable is the audit C10_decode_path_never_stores_through_the_tree, regenerated from the working tree on every run. The concurrent runs (2-16 goroutines, fresh and pooled contexts) must equal the solo runs, the tree dump must not change, and the solo runs must equal the Coq interpreter model.",
    "level_note": "PARTIAL by nature: data races and the Go memory model are runtime facts no model of ours exhibits; the audit is syntactic (does not see through unsafe or user callbacks) and is trusted; the race detector (thorough tier) and the stress are observations, not proofs. Unbounded: the interleaving theorem. Bounded: 14 programs x 2-8 goroutines x 25 repetitions quick; 150 x 2-16 x 120 thorough under -race.",
    "assumptions": ["goroutines share nothing but the parsed tree, the registries read by the decode path and the context pool", "sync.Pool hands a context to one goroutine at a time"],
    "projection": "executed rules (calls, destination fields, context variables) and result",
}
PROPS["C11"] = {
    "case_modules": [],
    "technique": "Coq theorem about buffer reuse (capacities survive Reset: a repeated demand trace allocates nothing) + measurement on the real decoder: heap-object counts over windows of hundreds to thousands of Reset-set-Decode repetitions after warm-up, and equality of all buffer lengths/capacities between windows (verif snapshot)",
    "level_text": "Theorems C11_*: for buffers that keep their capacity across Reset, serving the same (or a dominated) trace of demands again allocates nothing and leaves capacities unchanged. Which buffers the code has and that Reset truncates them is read through the context snapshot hook: after warm-up the snapshot must be identical window after window, and runtime.MemStats.Mallocs must not grow with the number of repetitions.",
    "level_note": "PARTIAL by nature: allocations decided by Go's escape analysis cannot be derived from a model; they are measured (Mallocs delta, GOMAXPROCS(1)). The runtime's own bookkeeping contributes a few objects per window, so the oracle is 'fewer than half an object per repetition' plus exact equality of the capacity snapshots. Known finding D26 (default(x) with a Go-typed argument allocates) is excluded from the stream and replayed.",
    "assumptions": ["user-registered functions and map-typed destinations are outside the property", "decodes that return an error build an error value and are not measured"],
}
PROPS["C13"] = {
    "case_modules": [],
    "race": True,
    "technique": "Coq: lock-discipline checker run on the lock structure regenerated from db.go by the translator (proved true by computation) + invariant proof for a readers-writer-lock interleaving model (readers see only completed writer operations; quiescent value = serial application) + the sequential refinement of C12; concurrent stress on the real package with version/monotonicity/completeness oracles and a deadlock watchdog; race detector in the thorough tier",
    "level_text": "C13_lock_discipline_of_db_go is re-proved on every run over the audit extracted from the working tree: every access to the four shared fields lies in a lock region of the right kind, no locking method is called with the lock held, every path releases it; C13_one_critical_section_per_method, over the same audit: on every path a method takes the lock at most once, so the lookup and the update of a registration form one atomic step. Given that, C13_reader_sees_complete_states and C13_quiescent_value_is_serial show in an interleaving model with a non-atomic writer that readers never see a half-installed registration and that writers are linearized at their critical sections; C12 gives the sequential meaning. W/R/P goroutines hammer the real registry; every decode must run a complete tree registered for its identifier, versions must respect real time, nothing may deadlock; pairs of racing registrations of one identifier must leave its id and its key leading to the same tree.",
    "level_note": "PARTIAL by nature: sync.RWMutex and the Go memory model are assumed to behave as the interleaving model says; a data race is invisible to the model and is looked for with the race detector (thorough tier) only. The audit is syntactic and trusted. Unbounded: the theorems. Bounded: 3 rounds x up to 20 goroutines x 400 ops quick; 12 x 4000 thorough; 1500 / 30000 racing pairs.",
    "assumptions": ["every access to the registry goes through db.go (audited: registry_fields_used_outside_db_go = [])"],
}

NOT_YET = {}


def project(kind, obs):
    """The part of an observation a property speaks about."""
    tr = obs.get("trace") or []
    if kind == "loop iterations (calls made by loop bodies, with the loop variables they received) and result":
        return {"res": obs["res"], "events": tr}
    if kind == "destination fields and result":
        return {"res": obs["res"], "fields": obs["fields"]}
    if kind == "destination fields, context variables and result":
        return {"res": obs["res"], "fields": obs["fields"], "vars": obs["vars"]}
    if kind == "calls with their arguments, destination fields and result":
        return {"res": obs["res"], "trace": tr, "fields": obs["fields"]}
    if kind == "context variables, calls and result":
        return {"res": obs["res"], "trace": tr, "vars": obs["vars"]}
    return {"res": obs["res"], "trace": tr, "fields": obs["fields"], "vars": obs["vars"]}


for _p, _k in [("C01", "destination fields and result"), ("C02", "destination fields, context variables and result"),
               ("C03", "executed rules (calls, destination fields, context variables) and result"),
               ("C04", "loop iterations (calls made by loop bodies, with the loop variables they received) and result"),
               ("C05", "loop iterations (calls made by loop bodies, with the loop variables they received) and result"),
               ("C06", "loop iterations (calls made by loop bodies, with the loop variables they received) and result"),
               ("C07", "executed rules (calls, destination fields, context variables) and result"),
               ("C14", "executed rules (calls, destination fields, context variables) and result"),
               ("C15", "executed rules (calls, destination fields, context variables) and result"),
               ("C16", "executed rules (calls, destination fields, context variables) and result"),
               ("C17", "calls with their arguments, destination fields and result"),
               ("C18", "destination fields and result"),
               ("C19", "context variables, calls and result")]:
    PROPS[_p]["projection"] = _k
