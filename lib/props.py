"""Per-property configuration of the runner."""

TRUSTED_BASE = [
    "Coq 8.16.1 kernel and vm_compute (no native_compute); full .vo build via coq_makefile/make",
    "no axioms declared; Print Assumptions of every property theorem is copied into this file",
    "translator (harness/cmd/vharness translate*.go): go/parser based extraction of constants, op.Swap/op.String tables, regular expressions (via regexp/syntax), lock/write audits",
    "correspondence harness (harness/cmd/vharness), its canonicalisation of observables, the verif-tagged read-only hooks in /repo/verif_hooks.go, and this runner",
    "modelled, not verified: Go runtime, regexp engine, strconv, hash/crc32, hash/crc64, sync primitives, and the dependencies inspector, vector, jsonvector, vector_inspector, x2bytes, bytebuf, bytealg",
]

PROPS = {
    "C12": {
        "case_modules": ["theories/CasesDb.v"],
        "technique": "Coq refinement proof (registry model of db.go refines an abstract id/key map on all valid histories) + exhaustive bounded differential replay of register histories against the real registry, evaluated in Coq by vm_compute",
        "level_text": "Theorems C12_* (props/C12.v): for every finite valid history the model of db.set/get/getKey1 answers every lookup exactly as a 20-line abstract registry does, which in turn satisfies latest-wins, partner sharing, others-unaffected and not-found. The model is tied to db.go by replaying every register history up to a bound on the real registry (reset through a verif hook) and comparing the full lookup table after every call, inside Coq.",
        "level_note": "Unbounded: the proof. Bounded: the correspondence (history length 4 quick / 6 thorough over ids {0,1}, keys {a,b}). Trusted: Coq kernel + vm_compute, the harness and hooks, Go maps as partial functions.",
        "assumptions": [
            "ids are non-negative, keys differ from \"-1\", and a paired identifier is never registered with a different partner (the property's own domain)",
            "Go maps behave as partial functions; sync.RWMutex serialises set/get (single-threaded histories here; schedules are C13)",
        ],
    },
}

NOT_YET = {}
