"""Asks Coq what the model computes for one interpreter case (used when the
correspondence fails, to write the replay file and to project the
disagreement onto the observables a property speaks about)."""
import os, re, shutil, subprocess, tempfile

SHOW = r'''
Definition showb (b : bytes) : string := (fix go l := match l with [] => EmptyString | x :: r => String (Ascii.ascii_of_N x) (go r) end) b.
Definition show_err (e : option err) : string :=
  match e with
  | None => "None" | Some EBreak => "(Some EBreak)" | Some ELBreak => "(Some ELBreak)" | Some ECont => "(Some ECont)"
  | Some (EUser n) => String.append "(Some (EUser " (String.append (showb (format_int (Z.of_nat n))) "))")
  | Some ECondHlpNotFound => "(Some ECondHlpNotFound)" | Some ESenseless => "(Some ESenseless)"
  | Some EWrongLoopLim => "(Some EWrongLoopLim)" | Some EWrongLoopCond => "(Some EWrongLoopCond)" | Some EWrongLoopOp => "(Some EWrongLoopOp)"
  | Some EModPoorArgs => "(Some EModPoorArgs)" | Some EModNoArgs => "(Some EModNoArgs)" | Some EGetterPoorArgs => "(Some EGetterPoorArgs)"
  | Some (EStrconv ESyntax) => "(Some (EStrconv ESyntax))" | Some (EStrconv ERange) => "(Some (EStrconv ERange))"
  | Some EUnknownType => "(Some EUnknownType)" | Some EUnknownIns => "(Some EUnknownIns)"
  | Some EFuel => "(Some EFuel)" | Some EUnsupported => "(Some EUnsupported)"
  | Some EOther => "(Some EOther)" | Some EPanic => "(Some EPanic)" | Some EHang => "(Some EHang)"
  end.
Definition pick_case := nth %d cases ([], []).
Eval vm_compute in map (fun o => (show_err (o_res o), map showb (o_trace o), map showb (o_vars o), map (map showb) (o_fields o))) (model_of pick_case).
'''


class P:
    def __init__(self, s):
        self.s, self.i = s, 0

    def ws(self):
        while self.i < len(self.s) and self.s[self.i] in " \n\t":
            self.i += 1

    def val(self):
        self.ws()
        c = self.s[self.i]
        if c == "[":
            self.i += 1
            out = []
            self.ws()
            if self.s[self.i] == "]":
                self.i += 1
                return out
            while True:
                out.append(self.val())
                self.ws()
                if self.s[self.i] == ";":
                    self.i += 1
                    continue
                if self.s[self.i] == "]":
                    self.i += 1
                    return out
                raise ValueError("list at %d" % self.i)
        if c == "(":
            self.i += 1
            out = []
            while True:
                out.append(self.val())
                self.ws()
                if self.s[self.i] == ",":
                    self.i += 1
                    continue
                if self.s[self.i] == ")":
                    self.i += 1
                    return tuple(out)
                raise ValueError("tuple at %d" % self.i)
        if c == '"':
            self.i += 1
            buf = []
            while True:
                ch = self.s[self.i]
                if ch == '"':
                    if self.s[self.i + 1:self.i + 2] == '"':
                        buf.append('"')
                        self.i += 2
                        continue
                    self.i += 1
                    return "".join(buf)
                buf.append(ch)
                self.i += 1
        raise ValueError("unexpected %r at %d" % (c, self.i))


def model_obs(case_file, idx, coqdir="/verif/coq"):
    src = open(case_file).read()
    src = re.sub(r"Definition M :=.*", "", src, flags=re.S)
    src += SHOW % idx
    d = tempfile.mkdtemp(prefix="modelobs")
    try:
        open(os.path.join(d, "show.v"), "w").write(src)
        out = subprocess.run(["coqc", "-Q", coqdir, "Dec", "-w", "-all", "show.v"], cwd=d, stdout=subprocess.PIPE,
                             stderr=subprocess.STDOUT, text=True, timeout=600).stdout
    finally:
        shutil.rmtree(d, ignore_errors=True)
    out = out.replace("%string", "")
    m = re.search(r"=\s*(\[.*\])\s*:\s*list", out, re.S)
    if not m:
        return None, out[-2000:]
    try:
        v = P(m.group(1)).val()
    except Exception as e:  # noqa
        return None, "parse error %s in %s" % (e, m.group(1)[:500])
    res = []
    for t in v:
        # nested pairs print as (a, b, c, d)
        res.append({"res": t[0], "trace": t[1], "vars": t[2], "fields": t[3]})
    return res, None
