#!/bin/bash
# soak.sh <first-seed> <last-seed> [tier]: run every registered check for a range of seeds; print only failures
T=${3:-quick}
./check setup || exit 1
for s in $(seq $1 $2); do
  for p in C01 C02 C03 C04 C05 C06 C07 C08 C09 C10 C11 C12 C13 C14 C15 C16 C17 C18 C19 C20; do
    out=$(VERIF_SEED=$s ./check $p --tier $T 2>&1); rc=$?
    if [ $rc -ne 0 ]; then echo "FAIL seed=$s $p :: $(echo "$out" | grep VIOLATION)"; r=$(echo "$out" | grep -o 'replay=[^ ]*' | head -1 | cut -d= -f2); cp "$r" "soak-fail-$p-$s.json" 2>/dev/null; fi
  done
  echo "seed $s done"
done
